"""C28 - virtual time runs actions in due order on a monotone clock.
Spec: VirtualTime.tla (lazy program enumeration).  Binding A: every exported history is
performed on VirtualTimeScheduler, TestScheduler and HistoricalScheduler."""
from __future__ import annotations

import json
import random

from harness import core, tlc
from props import vt_common

INVS = ["TypeOK", "NotEarly", "RunClocksSorted", "RunOnce", "AdvanceComplete", "StartComplete", "Fifo"]

QUICK = dict(MaxCmds=4, MaxItems=3, MaxBody=2, RelD={1, 2}, AbsT={0, 2}, AdvT={0, 1, 3}, AdvD={1, 2}, Bump=False)
THOROUGH = dict(MaxCmds=5, MaxItems=4, MaxBody=2, RelD={1, 2}, AbsT={0, 2}, AdvT={0, 1, 3}, AdvD={1, 2}, Bump=False)
SIM = dict(MaxCmds=8, MaxItems=6, MaxBody=3, RelD={0, 1, 2, 3}, AbsT={0, 1, 2, 4}, AdvT={0, 1, 2, 3, 5}, AdvD={0, 1, 2}, Bump=False)


def _job(args):
    scn, allowed = args
    return [f for f in (vt_common.judge(scn, allowed, k) for k in vt_common.KINDS) if f]


def run(tier: str) -> int:
    ck = core.Check("C28", tier)
    ck.rule = ("histories of schedule/schedule_relative/schedule_absolute/cancel/start/advance_to/advance_by/sleep "
               "(actions schedule, cancel and stop) enumerated lazily by TLC on VirtualTime.tla; each performed on "
               "the three real virtual-time schedulers; non-trivial = at least one action ran")
    consts = QUICK if tier == "quick" else THOROUGH
    # 1. design check + export, exhaustive
    res = tlc.run("VirtualTime", tlc.cfg_text(consts, invariants=INVS + ["Export"], properties=["Monotone"]),
                  workers=1, timeout=3000, xmx="6g", allow_violation=False)
    ck.add_tlc(res, "exhaustive " + json.dumps({k: sorted(v) if isinstance(v, set) else v for k, v in consts.items()}))
    lines = list(res.lines)
    ck.exhaustive = True
    # 2. deeper histories by simulation
    n = 3000 if tier == "quick" else 60000
    sim = tlc.run("VirtualTime", tlc.cfg_text(SIM, invariants=INVS + ["Export"]), workers=1, timeout=1200,
                  simulate=f"num={n}", depth=60, seed=ck.seed + 7, xmx="4g", allow_violation=False)
    ck.add_tlc(sim, "simulate depth 60")
    # a simulated behaviour shows one resolution of the model's nondeterminism only; histories
    # whose allowed set is not a singleton are judged in the exhaustive part, not here
    lines += [ln for ln in sim.lines if not ln["obs"]["amb"]]
    ck.note("simulated_histories_skipped_as_ambiguous", sum(1 for ln in sim.lines if ln["obs"]["amb"]))
    groups = core.group_allowed(lines)
    ck.note("scenarios", len(groups))
    ck.note("scenarios_with_choice", sum(1 for g in groups if len(g[1]) > 1))
    for fails in core.parallel_map(_job, groups):
        for f in fails:
            ck.fail(f)
    ck.impl = len(groups) * len(vt_common.KINDS)
    ck.nontrivial = sum(1 for g in groups if g[1][0]["ran"])
    rnd = random.Random(ck.seed)
    for g in rnd.sample(groups, min(4, len(groups))):
        ck.sample({"scn": g[0], "allowed": g[1]})
    ck.assumptions = ["TLC 1.8 explores VirtualTime.tla correctly", "tick = 1 s (float) / timedelta(seconds=1)",
                      "TestScheduler's run loop is VirtualTimeScheduler.start (its own start() is the create/subscribe/dispose helper)"]
    return ck.finish()


def replay(rec) -> int:
    f = vt_common.judge(rec["scn"], rec["expected"], rec["sched"])
    print(json.dumps(f, default=str)[:2000] if f else "replay: observation allowed by the spec")
    return 1 if f else 0


META = {
    'technique': 'TLC-enumerated call histories of VirtualTime.tla replayed stepwise on the three real virtual-time schedulers',
    'level': 'TLC checks order/clock/advance invariants on every state of the bounded history space of VirtualTime.tla and exports every history with its allowed observations; each is performed on VirtualTimeScheduler, TestScheduler and HistoricalScheduler and the per-command clock and run log must be one the spec allows. Exhaustive up to the stated command budget, simulated beyond it.',
    'note': "TLC 1.8; the replayer's command codec; tick = 1 s",
    'ref': 'DESIGN.md 6 C28, D.4',
}
