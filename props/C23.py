"""C23 - see META.  Spec: spec/Subjects.tla (Kind = "async"); Binding A, stepwise (props/subjects_common.py)."""
from props import subjects_common as sc


def run(tier):
    return sc.run_kind("C23", "async", tier)


replay = sc.generic_replay

META = {'technique': 'TLC-enumerated call histories of Subjects.tla (Kind=async) replayed stepwise on the real '
              'AsyncSubject, last values from a falsy pool',
 'level': 'Subjects.tla with value/hasValue: on_next only records, on_completed hands (last value if any, '
          'completed) to every current observer, on_error only the error, late subscribers get the same; TLC '
          'checks SilentUntilDone, LastThenCompleted, ErrorOnly, LateSameAsCurrent plus call order, silence '
          'after unsubscription (also between the value and the completion) and DisposedRaises on every '
          'state and exports every history with its accepted observations; each is performed on the real '
          'AsyncSubject (falsy last values, falsy exception objects) and compared after every top-level '
          'call. Exhaustive up to the stated call budget, simulated beyond it.',
 'note': 'TLC 1.8; the call/value codec of props/subjects_common.py (identity-based value comparison); '
         'single thread',
 'ref': 'DESIGN.md 6 C23, D.8'}
