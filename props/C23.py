"""C23 - see META.  Spec: spec/Subjects.tla (Kind = "async"); Binding A, stepwise (props/subjects_common.py)."""
from props import subjects_common as sc


def run(tier):
    return sc.run_kind("C23", "async", tier)


replay = sc.generic_replay

META = {'technique': 'TLC-enumerated call histories of Subjects.tla (Kind=async) replayed stepwise on the real '
              'AsyncSubject, last values from a falsy pool',
 'level': 'Subjects.tla with value/hasValue: on_next only records, on_completed hands (last value if any, '
          'completed) to every current observer, on_error only the error, late subscribers get the same; TLC '
          'checks SilentUntilDone, LastThenCompleted, ErrorOnly, LateSameAsCurrent plus call order, silence '
          'after unsubscription (also between the value and the completion) and DisposedRaises on every '
          'state and exports every history with its accepted observations; each is performed on the real '
          'AsyncSubject (falsy last values, falsy exception objects) and compared after every top-level '
          'call. Exhaustive up to the stated call budget, simulated beyond it. In addition adjacent calls of exported histories (subscribe vs an emitting call; AsyncSubject on_next vs on_completed) are issued on two threads under DetSched (preemption bound 2/3) and the outcome must be the exported outcome of one of the two sequential orders; dispose() from inside a callback is modelled with an open cut-off set.',
 'note': 'TLC 1.8; DetSched shims for the subject locks (a source line without a call is atomic); the call/value codec of props/subjects_common.py (identity-based value comparison); '
         'single thread',
 'ref': 'DESIGN.md 6 C23, D.8'}
