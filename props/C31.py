"""C31 - an EventLoopScheduler runs its actions serially on one dedicated thread, in order; cancelled-before-start never runs;
after dispose() returned scheduling raises and nothing scheduled later runs; exit_if_empty hands over to a new thread.
Spec: EventLoop.tla (abstract object, linearizability style, silent Commit) + EventLoopTrace.tla (Binding C+B) +
EventLoopImpl.tla (PlusCal, run()'s three critical sections as the code implements them; design assurance only)."""
from __future__ import annotations

from harness import core, tlc
from props import evloop_common as ec

META = {
    "technique": "TLA+ abstract concurrent object with silent Lin/Commit steps (EventLoop.tla) checked by TLC on all interleavings; real EventLoopScheduler run under deterministic thread schedules (preemption-bounded + seeded random) with a controlled clock, every execution validated as a trace by TLC (EventLoopTrace.tla); PlusCal lock-granularity model of run() checked against the same invariants",
    "level": "TLC checks Serial/OneThread/Fifo/DueOrder/CrossOrderTI/CrossOrderIT/NotEarly/CancelledNeverRuns/NoRunAfterDisposeReturned/ThreadForPending on every interleaving of the bounded abstract generator (2 clients, loop-thread lifecycle, clock) and NoLostWakeup as a liveness property; 40-65 client scenarios (schedule / schedule_relative / schedule_absolute / cancel / dispose / sleep, actions that call the scheduler, exit_if_empty both ways) are executed on the real class for every sampled schedule up to the preemption bound and each recorded call/ret/start/end/thread-start/thread-exit trace must be explainable by some placement of the silent linearization, commit and exit steps that satisfies every invariant, ending in a quiescent state without a due pending item (no lost wake-up) and, with exit_if_empty, without a thread.",
    "note": "TLC 2026.09 / DetSched switch points = GIL-realisable points of eventloopscheduler.py + scheduleditem.py and every shim operation; threading.Condition/Lock, Thread (thread_factory) and default_now replaced by cooperative shims on a controlled clock; scenario scripts in ticks under two time-scale profiles (1 tick = 1 s; 1 tick = 0.4 ms), traces in integer microseconds",
    "ref": "DESIGN.md 6 C31, 3.3, D.6",
}

RULE = ("client scenarios of <= 3 threads x <= 4 operations over <= 4 items on one EventLoopScheduler, exit_if_empty both ways, "
        "explored level by level (0, 1, 2.. deviations from the non-preemptive schedule, preemption bound 2 quick / 3 thorough, each level "
        "subsampled evenly) plus seeded random schedules; non-trivial = distinct traces in which some context switch preempted a runnable thread")
ASSUME = [
    "controlled schedules preempt only where the pinned GIL interpreter can (after a call instruction, at function entry, at backward jumps, at shim operations): a subset of the language-level interleavings",
    "the controlled clock moves only when no thread is runnable; hence it does not move between a schedule call and its critical section (an absolute due time that becomes due DURING the call is not explored)",
    "an item is classed immediate/timed by the clock at its submission; across the classes a timed item may not overtake an immediate item submitted before its due time and an immediate item may not overtake a timed item due earlier; equal times (across classes, among timed items) are not asserted (statement silent); an immediate item with a due time in the past is compared by its submission clock",
    "several scheduler instances in one execution are validated as one trace per instance (events attributed by item owner / by the thread_factory that created the thread)",
    "a schedule call overlapping a dispose() may be refused or accepted, and an accepted one may or may not run (statement speaks only of calls after dispose() returned)",
    "a cancelled timed item may keep an exit_if_empty thread alive until its due time",
]


def run(tier: str) -> int:
    ck = core.Check("C31", tier)
    ck.rule = RULE
    quick = tier == "quick"
    ec.jvm_for(tier)
    design = ec.Bg(ec.el_design, tier)
    live = None if quick else ec.Bg(ec.el_liveness, tier)
    impl = None if quick else ec.Bg(ec.impl_design, tier)      # lock-granularity PlusCal model: thorough tier (one JVM less on a busy box)
    scs = ec.el_scenarios(tier)
    if quick:
        total, distinct = ec.conc_check(ck, scs, tier, "EventLoopTrace", ec.EL_TRACE_CONSTS, ec.EL_INVS, "evloop-conc",
                                        bound=2, per_level=(1, 20, 10, 3), nrandom=4, procs=8)
    else:
        total, distinct = ec.conc_check(ck, scs, tier, "EventLoopTrace", ec.EL_TRACE_CONSTS, ec.EL_INVS, "evloop-conc",
                                        bound=3, per_level=(1, 200, 220, 110, 40), nrandom=90, procs=8)
    if not quick:
        ec.impl_trace_check(ck, ck.rows)
    res, consts = design.result()
    ck.add_tlc(res, "design: all interleavings of the abstract object (client symmetry) " + str(consts))
    ck.note("design_coverage", ec.require_coverage(res, ec.EL_ACTIONS, "EventLoop design run"))
    if live is not None:
        ck.add_tlc(live.result(), "liveness: NoLostWakeup of the abstract object under FairSpec (1 client)")
    for (label, r, drift) in (impl.result() if impl is not None else []):
        ck.add_tlc(r, label)
        if drift:
            ck.drift(drift)
    ck.nontrivial = distinct
    ck.exhaustive = False
    ck.note("schedules", "level-sampled up to the preemption bound + seeded random; not exhaustive (see evloop-conc_scenarios_truncated_at_max_schedules)")
    ck.assumptions = ASSUME
    return ck.finish()


def replay(rec) -> int:
    return ec.replay_record(rec, "EventLoopTrace", ec.EL_TRACE_CONSTS, ec.EL_INVS)
