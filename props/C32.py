"""C32 - observe_on / ScheduledObserver deliver every notification once, in order, serially, on the target scheduler, and leave nothing
behind (ScheduledObserver.tla: abstract object in linearizability style; ScheduledObserverImpl.tla: PlusCal model of the
queue / is_acquired / has_faulted handshake; real executions under controlled thread schedules validated as traces)."""
from props import obs_common as oc

META = {
    "technique": "TLA+ abstract object of the scheduled observer (received / delivered-prefix / inDelivery / faulted, silent linearization step) + TLC-checked PlusCal model of the enqueue/drain handshake as implemented; real ObserveOnObserver / ReplaySubject runs under DetSched-controlled thread schedules validated by TLC trace checking (ScheduledObserverTrace.tla)",
    "level": "TLC checks, over all interleavings of a producer (<= 3-4 notifications, any delivery may raise) with one event-loop thread or a two-thread pool, that the lock-granularity model of queue / is_acquired / has_faulted satisfies the guards of the abstract object (next undelivered notification only, never two deliveries at once, none after a fault, nothing received left behind when the scheduler is idle) and the liveness property that everything received is eventually delivered unless a delivery raised. On the real code a producer thread (or two merged producers, or a ReplaySubject producer plus a late subscriber) emits through observe_on / ReplaySubject(scheduler=...) onto an EventLoopScheduler, NewThreadScheduler or TimeoutScheduler whose threads are logical threads on a controlled clock; every schedule up to the preemption bound (fewest preemptions first, plus seeded random ones) with switch points at every line of scheduledobserver.py / observeonobserver.py and every cooperative lock / condition operation is executed, and each per-observer trace of calls, deliveries (with thread) and the final idle observation must be explainable by the abstract object.",
    "note": "TLC 1.8, pcal 1.12; DetSched switch points are GIL-realisable points only; recording subclasses of ObserveOnObserver / ScheduledObserver log call/return and are otherwise unchanged; a delivery that raises kills the event-loop thread in the pinned code - accepted, the property only demands that nothing further is delivered",
    "ref": "DESIGN.md 6 C32, D.7, 3.3",
}

RULE = ("observe_on over EventLoopScheduler (also exit_if_empty), NewThreadScheduler and TimeoutScheduler with producer scripts of <= 4 calls "
        "(including calls after a terminal and a raising downstream callback at each position), two merged producers, and "
        "ReplaySubject(scheduler=...) - also on a CurrentThreadScheduler, where two drain chains would run concurrently - with an early and a late subscriber; non-trivial = distinct per-observer traces with at least one delivery")
ASSUME = [
    "controlled schedules preempt only where the pinned GIL interpreter can: a subset of the language-level interleavings, so every reported schedule is realisable",
    "calls on one scheduled observer are serial (the Rx contract); the trace specification rejects overlapping calls as such",
    "'on the target scheduler' is checked as: the delivering thread is one created by the scheduler's thread factory / timer; for the "
    "CurrentThreadScheduler kind (a trampoline per calling thread) every scheduling thread belongs to the target scheduler, the clause is vacuous",
    "quiescence is the end of a controlled run: every logical thread finished or blocked with no timed wait pending; the trace ends with the "
    "idle observation, which the abstract object only allows when faulted or everything received was delivered",
    "the schedule search is cut at a per-scenario budget; the evidence lists up to which preemption count each scenario was explored completely",
]


def run(tier):
    return oc.so_run("C32", tier, RULE, ASSUME)


replay = oc.so_replay
